"""Reference contrast codings (C11), written from the textbook / R definitions in exact arithmetic.

Every coding is produced twice, by two independent routes, and `selftest()` proves (in `Fraction`s) that the routes
agree for n = 1..13:

* closed form   -- the matrix as printed by R (`contr.treatment`, `contr.SAS`, `contr.sum`, `contr.helmert`,
                   `MASS::contr.sdif`, `contr.poly`) or the UCLA "coding systems for categorical variables" tables;
* by meaning    -- the hypothesis (coefficient) matrix H whose rows say *what the regression coefficients estimate*
                   (row 0: the intercept, row j: contrast j as weights over the level means); the coding matrix is then
                   the last n-1 columns of H^-1  (Venables & Ripley, MASS 4th ed., section 6.2).

Nothing in this module imports formulaic or numpy.
"""
from fractions import Fraction as F
import math

ZERO, ONE = F(0), F(1)


# ---------------------------------------------------------------------------
# exact linear algebra on lists of lists of Fractions

def eye(n):
    return [[ONE if i == j else ZERO for j in range(n)] for i in range(n)]


def matmul(a, b):
    if not a:
        return []
    m = len(b[0]) if b else 0
    return [[sum((a[i][k] * b[k][j] for k in range(len(b))), ZERO) for j in range(m)] for i in range(len(a))]


def transpose(a, ncols=None):
    if not a:
        return [[] for _ in range(ncols or 0)]
    return [list(r) for r in zip(*a)] if a[0] else []


def with_ones(coding):
    """[1 | coding]"""
    return [[ONE] + list(r) for r in coding]


def rank(a):
    a = [list(map(F, r)) for r in a]
    if not a or not a[0]:
        return 0
    rows, cols = len(a), len(a[0])
    r = 0
    for c in range(cols):
        p = next((i for i in range(r, rows) if a[i][c] != 0), None)
        if p is None:
            continue
        a[r], a[p] = a[p], a[r]
        piv = a[r][c]
        for i in range(r + 1, rows):
            if a[i][c] != 0:
                f = a[i][c] / piv
                a[i] = [x - f * y for x, y in zip(a[i], a[r])]
        r += 1
        if r == rows:
            break
    return r


def inverse(a):
    n = len(a)
    m = [list(map(F, a[i])) + eye(n)[i] for i in range(n)]
    for c in range(n):
        p = next((i for i in range(c, n) if m[i][c] != 0), None)
        if p is None:
            raise ZeroDivisionError("singular")
        m[c], m[p] = m[p], m[c]
        piv = m[c][c]
        m[c] = [x / piv for x in m[c]]
        for i in range(n):
            if i != c and m[i][c] != 0:
                f = m[i][c]
                m[i] = [x - f * y for x, y in zip(m[i], m[c])]
    return [r[n:] for r in m]


def coding_from_hypothesis(h):
    """coding = columns 1.. of H^-1"""
    inv = inverse(h)
    return [r[1:] for r in inv]


# ---------------------------------------------------------------------------
# closed forms (as R prints them)

def treatment(n, base=0):
    """contr.treatment(n, base): identity without the column of the reference level (0-based index)."""
    return [[ONE if i == j else ZERO for j in range(n) if j != base] for i in range(n)]


def sas(n, base=None):
    """contr.SAS(n): treatment with the last level as reference."""
    return treatment(n, n - 1 if base is None else base)


def sum_(n):
    """contr.sum(n): identity on the first n-1 levels, last level is -1 everywhere."""
    return [[(ONE if i == j else ZERO) if i < n - 1 else -ONE for j in range(n - 1)] for i in range(n)]


def helmert(n, reverse=True, scale=False):
    """reverse=True, scale=False is R's contr.helmert(n): column j = (-1,...,-1 [j+1 times], j+1, 0,...).
    reverse=False is the "forward" Helmert coding of the UCLA tables: column j = (0,.., n-j-1, -1,...,-1).
    scale=True divides column j by the number of levels taking part in it (j+2, resp. n-j) so that the coefficient is
    exactly "level minus the mean of the previous (resp. subsequent) levels"."""
    m = [[ZERO] * (n - 1) for _ in range(n)]
    for j in range(n - 1):
        if reverse:
            for i in range(j + 1):
                m[i][j] = -ONE
            m[j + 1][j] = F(j + 1)
            d = F(j + 2)
        else:
            m[j][j] = F(n - j - 1)
            for i in range(j + 1, n):
                m[i][j] = -ONE
            d = F(n - j)
        if scale:
            for i in range(n):
                m[i][j] /= d
    return m


def diff(n, backward=True):
    """backward=True is MASS::contr.sdif(n) (coefficient j = level j+1 minus level j): column j has -(n-j-1)/n on the
    first j+1 rows and (j+1)/n below.  backward=False is its negative (level j minus level j+1)."""
    m = [[(F(-(n - j - 1), n) if i <= j else F(j + 1, n)) for j in range(n - 1)] for i in range(n)]
    if not backward:
        m = [[-x for x in r] for r in m]
    return m


def poly_orthogonal(scores, degree=None):
    """Monic orthogonal polynomials on the points `scores` by exact Gram-Schmidt on 1, x, x^2, ...

    Returns (V, norms2, coefs): V[k][i] = p_k(scores[i]) (k = 0..degree), norms2[k] = sum_i p_k(x_i)^2 and coefs[k] = the
    monomial coefficients of p_k (lowest power first; coefs[k][k] == 1)."""
    x = [F(s) for s in scores]
    n = len(x)
    degree = n - 1 if degree is None else degree
    V, norms2, coefs = [], [], []
    for k in range(degree + 1):
        xk = [xi ** k for xi in x]
        v = list(xk)
        c = [ZERO] * k + [ONE]
        for j in range(k):
            if norms2[j] == 0:
                raise ZeroDivisionError("fewer than degree+1 distinct points")
            t = sum(a * b for a, b in zip(xk, V[j])) / norms2[j]
            v = [a - t * b for a, b in zip(v, V[j])]
            c = [a - t * (coefs[j][i] if i < len(coefs[j]) else ZERO) for i, a in enumerate(c)]
        V.append(v)
        norms2.append(sum(a * a for a in v))
        coefs.append(c)
    if norms2 and norms2[-1] == 0 and degree > 0:
        raise ZeroDivisionError("fewer than degree+1 distinct points")
    return V, norms2, coefs


def poly_float(scores, degree=None):
    """contr.poly(n, scores) / poly(x, degree): n x degree floats, column k-1 = p_k(x)/||p_k|| (positive leading
    coefficient because p_k is monic).  Correctly rounded up to a few ulps: every entry is sqrt of an exact rational."""
    V, norms2, _ = poly_orthogonal(scores, degree)
    n = len(scores)
    out = [[0.0] * (len(V) - 1) for _ in range(n)]
    for k in range(1, len(V)):
        for i in range(n):
            out[i][k - 1] = _signed_sqrt_ratio(V[k][i], norms2[k])
    return out


def _signed_sqrt_ratio(v, n2):
    """v / sqrt(n2) for Fractions, accurately: sign(v) * sqrt(v^2 / n2)"""
    if v == 0:
        return 0.0
    q = v * v / n2
    return math.copysign(sqrt_fraction(q), 1 if v > 0 else -1)


def sqrt_fraction(q):
    """sqrt of a non-negative Fraction to double precision without overflow/underflow of the parts"""
    if q == 0:
        return 0.0
    # scale so that the integer square root carries > 64 significant bits
    num, den = q.numerator, q.denominator
    shift = max(0, 140 - (num.bit_length() - den.bit_length()))
    shift += shift % 2
    r = math.isqrt((num << shift) // den)
    return float(F(r, 1 << (shift // 2)))


def poly_eval(coefs_k, norm2_k, t):
    """p_k(t)/||p_k|| exactly evaluated (Horner in Fractions), returned as float"""
    t = F(t)
    acc = ZERO
    for c in reversed(coefs_k):
        acc = acc * t + c
    return _signed_sqrt_ratio(acc, norm2_k)


# ---------------------------------------------------------------------------
# by meaning: hypothesis matrices

def _avg_row(n):
    return [F(1, n)] * n


def hyp_treatment(n, base=0):
    rows = [[ONE if j == base else ZERO for j in range(n)]]
    for lvl in range(n):
        if lvl != base:
            rows.append([(ONE if j == lvl else ZERO) - (ONE if j == base else ZERO) for j in range(n)])
    return rows


def hyp_sum(n):
    rows = [_avg_row(n)]
    for lvl in range(n - 1):
        rows.append([(ONE if j == lvl else ZERO) - F(1, n) for j in range(n)])
    return rows


def hyp_helmert(n, reverse=True, scale=False):
    rows = [_avg_row(n)]
    for j in range(n - 1):
        if reverse:   # level j+1 minus the mean of levels 0..j
            r = [(-F(1, j + 1) if i <= j else (ONE if i == j + 1 else ZERO)) for i in range(n)]
            d = F(j + 2)
        else:         # level j minus the mean of levels j+1..n-1
            r = [(ONE if i == j else (-F(1, n - j - 1) if i > j else ZERO)) for i in range(n)]
            d = F(n - j)
        if not scale:
            r = [x / d for x in r]
        rows.append(r)
    return rows


def hyp_diff(n, backward=True):
    rows = [_avg_row(n)]
    for j in range(n - 1):
        s = ONE if backward else -ONE
        rows.append([(s if i == j + 1 else (-s if i == j else ZERO)) for i in range(n)])
    return rows


# ---------------------------------------------------------------------------

def reference(kind, n, **opt):
    """exact reduced coding matrix (n x (n-1)) for the non-polynomial codings"""
    if kind == "treatment":
        return treatment(n, opt.get("base", 0))
    if kind == "SAS":
        return sas(n, opt.get("base"))
    if kind == "sum":
        return sum_(n)
    if kind == "helmert":
        return helmert(n, opt.get("reverse", True), opt.get("scale", False))
    if kind == "diff":
        return diff(n, opt.get("backward", True))
    raise KeyError(kind)


def hypothesis(kind, n, **opt):
    if kind == "treatment":
        return hyp_treatment(n, opt.get("base", 0))
    if kind == "SAS":
        b = opt.get("base")
        return hyp_treatment(n, n - 1 if b is None else b)
    if kind == "sum":
        return hyp_sum(n)
    if kind == "helmert":
        return hyp_helmert(n, opt.get("reverse", True), opt.get("scale", False))
    if kind == "diff":
        return hyp_diff(n, opt.get("backward", True))
    raise KeyError(kind)


def indicator(data, levels):
    """rows of 0/1: 1 where the datum equals the level; all-zero for nulls and for values outside `levels`"""
    return [[ONE if (d is not None and d == l and type(d) is type(l)) else ZERO for l in levels] for d in data]


# R output pinned verbatim (contr.helmert(4), contr.sdif(4), contr.sum(3), contr.poly(3), contr.poly(4))
_PINNED = {
    ("helmert", 4): [[-1, -1, -1], [1, -1, -1], [0, 2, -1], [0, 0, 3]],
    ("diff", 4): [[F(-3, 4), F(-1, 2), F(-1, 4)], [F(1, 4), F(-1, 2), F(-1, 4)], [F(1, 4), F(1, 2), F(-1, 4)],
                  [F(1, 4), F(1, 2), F(3, 4)]],
    ("sum", 3): [[1, 0], [0, 1], [-1, -1]],
    ("treatment", 3): [[0, 0], [1, 0], [0, 1]],
    ("SAS", 3): [[1, 0], [0, 1], [0, 0]],
}
_PINNED_POLY = {
    3: [[-7.071068e-01, 0.4082483], [0.0, -0.8164966], [7.071068e-01, 0.4082483]],
    4: [[-0.6708204, 0.5, -0.2236068], [-0.2236068, -0.5, 0.6708204], [0.2236068, -0.5, -0.6708204],
        [0.6708204, 0.5, 0.2236068]],
}


def selftest(nmax=13):
    for (kind, n), want in _PINNED.items():
        if reference(kind, n) != [[F(x) for x in r] for r in want]:
            raise AssertionError("closed form of %s(%d) disagrees with the pinned R output" % (kind, n))
    for n, want in _PINNED_POLY.items():
        got = poly_float(list(range(1, n + 1)))
        for i in range(n):
            for j in range(n - 1):
                if abs(got[i][j] - want[i][j]) > 5e-7:
                    raise AssertionError("poly reference disagrees with pinned contr.poly(%d)" % n)
    for n in range(1, nmax + 1):
        specs = [("sum", {}), ("SAS", {})]
        specs += [("treatment", {"base": b}) for b in range(n)] + [("SAS", {"base": b}) for b in range(n)]
        specs += [("helmert", {"reverse": r, "scale": s}) for r in (True, False) for s in (True, False)]
        specs += [("diff", {"backward": b}) for b in (True, False)]
        for kind, opt in specs:
            c = reference(kind, n, **opt)
            h = hypothesis(kind, n, **opt)
            if len(c) != n or any(len(r) != n - 1 for r in c):
                raise AssertionError("shape of %s %r n=%d" % (kind, opt, n))
            if coding_from_hypothesis(h) != c:
                raise AssertionError("closed form and hypothesis-derived coding differ: %s %r n=%d" % (kind, opt, n))
            if matmul(h, with_ones(c)) != eye(n):
                raise AssertionError("H [1|C] != I: %s %r n=%d" % (kind, opt, n))
            if rank(with_ones(c)) != n:
                raise AssertionError("rank: %s %r n=%d" % (kind, opt, n))
            if kind in ("sum", "helmert", "diff") and any(sum(col) != 0 for col in transpose(c, n - 1)):
                raise AssertionError("column sums: %s %r n=%d" % (kind, opt, n))
        # polynomial: exact orthogonality, monic, degree k
        for scores in (list(range(n)), [i * i for i in range(n)], [F(i, 2) + (i % 2) for i in range(n)]):
            V, n2, coefs = poly_orthogonal(scores)
            for k in range(n):
                if coefs[k][k] != 1 or len(coefs[k]) != k + 1:
                    raise AssertionError("poly not monic of degree k")
                for i, s in enumerate(scores):
                    if sum(c * F(s) ** p for p, c in enumerate(coefs[k])) != V[k][i]:
                        raise AssertionError("poly coefficients do not reproduce the values")
                for j in range(k):
                    if sum(a * b for a, b in zip(V[k], V[j])) != 0:
                        raise AssertionError("poly not orthogonal")
    return True
