"""Exact-arithmetic reference for C13 (scale / center / standardize / poly / element-wise functions).

Inputs are Python floats; every float is an exact rational, so moments, centred values and orthogonal polynomials are
computed without rounding in `fractions.Fraction`; only the final square roots / divisions are rounded (to ~1 ulp).
Nothing here imports formulaic or numpy.
"""
from fractions import Fraction as F
import math

from models.contrasts_ref import poly_orthogonal, sqrt_fraction, _signed_sqrt_ratio

U = 2.0 ** -53


# ---------------------------------------------------------------------------
# scale / center

def moments(x, center, scale, ddof):
    """(mu, s2): the mean that is subtracted (None if not centred) and the *squared* scale divisor (None if not scaled).

    scale divides by sqrt(sum((x - mu)^2) / (N - ddof)); without centring mu = 0 (root mean square about zero, as in R)."""
    xs = [F(v) for v in x]
    n = len(xs)
    mu = sum(xs) / n if center else None
    s2 = None
    if scale:
        s2 = sum((v - (mu or 0)) ** 2 for v in xs) / (n - F(ddof))    # ddof may be fractional (exact: 0.5, 1.5)
    return mu, s2


def apply_stats(v, mu, s2):
    """(v - mu) / sqrt(s2) for one float v, accurately rounded"""
    y = F(v) - (mu if mu is not None else 0)
    if s2 is None:
        return float(y)
    return _signed_sqrt_ratio(y, s2)


def mean_exact(vals):
    return sum(F(v) for v in vals) / len(vals)


def sd_exact(vals, ddof, about_mean=True):
    """sqrt(sum((v - m)^2)/(N - ddof)) of float values, m = mean or 0"""
    m = mean_exact(vals) if about_mean else 0
    return sqrt_fraction(sum((F(v) - m) ** 2 for v in vals) / (len(vals) - F(ddof)))


def kappa(x):
    """conditioning of standardisation: max|x| / sd(x) (population sd); the relative rounding error of the mean is
    ~N*u*max|x|, which becomes ~N*u*kappa after division by the standard deviation"""
    xs = [F(v) for v in x]
    m = sum(xs) / len(xs)
    var = sum((v - m) ** 2 for v in xs) / len(xs)
    if var == 0:
        return math.inf
    return float(max(abs(v) for v in xs)) / sqrt_fraction(var)


# ---------------------------------------------------------------------------
# orthogonal polynomials

class PolyRef:
    """the unique orthonormal polynomial basis p_1..p_d (positive leading coefficients) on the points x, exactly"""

    def __init__(self, x, degree):
        self.x = [F(v) for v in x]
        self.degree = degree
        self.V, self.n2, self.coefs = poly_orthogonal(self.x, degree)   # raises ZeroDivisionError if too few points
        n = len(self.x)
        m = sum(self.x) / n
        self.spread = float(max(abs(v - m) for v in self.x))
        # the recurrence coefficients alpha_k = sum(x p_k^2)/sum(p_k^2) are formed from the raw x: an offset |mean| that
        # is large relative to the spread costs log2(1 + |mean|/spread) further bits
        self.offset_factor = 1.0 + float(abs(m)) / self.spread
        # three-term recurrence coefficients of the monic polynomials: p_{k+1} = (t - alpha_k) p_k - beta_k p_{k-1}
        self.alpha = [sum(xi * v * v for xi, v in zip(self.x, self.V[k])) / self.n2[k] for k in range(degree)]
        self.beta = [None] + [self.n2[k] / self.n2[k - 1] for k in range(1, degree)]
        # growth of the recurrence: how much larger the terms that are subtracted are than the result.  A float64
        # evaluation of the recurrence loses log2(K) bits in column k (running error analysis; measured err/(u*K) <= 5)
        self.K = []
        k_ = 1.0
        for k in range(1, degree + 1):
            g = self.spread * sqrt_fraction(self.n2[k - 1] / self.n2[k])
            k_ *= max(1.0, g)
            self.K.append(k_)

    def train(self):
        """n x degree floats: p_k(x_i)/||p_k||"""
        return [[_signed_sqrt_ratio(self.V[k][i], self.n2[k]) for k in range(1, self.degree + 1)] for i in range(len(self.x))]

    def evaluate(self, t):
        """([p_k(t)/||p_k|| for k=1..d], [running magnitude bound m_k(t)/||p_k||]) at a new point t"""
        t = F(t)
        p = [F(1)]
        mag = [F(1)]
        for k in range(self.degree):
            nxt = (t - self.alpha[k]) * p[k]
            mg = abs(t - self.alpha[k]) * mag[k]
            if k >= 1:
                nxt -= self.beta[k] * p[k - 1]
                mg += self.beta[k] * mag[k - 1]
            p.append(nxt)
            mag.append(mg)
        vals = [_signed_sqrt_ratio(p[k], self.n2[k]) for k in range(1, self.degree + 1)]
        mags = [sqrt_fraction(mag[k] * mag[k] / self.n2[k]) for k in range(1, self.degree + 1)]
        return vals, mags

    def tol(self, k, base=1e-9, c=64.0):
        """absolute tolerance for (unit-norm) column k = 1..degree"""
        return max(base, c * U * self.K[k - 1] * self.offset_factor)


# ---------------------------------------------------------------------------
# element-wise functions: what the names denote

ELEMENTWISE = {
    "log": math.log,
    "log2": math.log2,
    "log10": math.log10,
    "exp": math.exp,
    "exp2": lambda v: math.pow(2.0, v),
    "exp10": lambda v: math.pow(10.0, v),
}
INVERSE_PAIRS = [("log", "exp"), ("log2", "exp2"), ("log10", "exp10")]


def selftest():
    mu, s2 = moments([1.0, 2.0, 3.0, 4.0], True, True, 1)
    assert mu == F(5, 2) and s2 == F(5, 3)
    mu, s2 = moments([1.0, 2.0, 3.0, 4.0], False, True, 0)
    assert mu is None and s2 == F(30, 4)
    assert abs(apply_stats(4.0, F(5, 2), F(5, 3)) - 1.161895003862225) < 1e-15
    pr = PolyRef([1.0, 2.0, 3.0, 4.0, 5.0], 3)
    tr = pr.train()
    # R: poly(1:5, 3)
    want = [[-0.6324555, 0.5345225, -3.162278e-01], [-0.3162278, -0.2672612, 6.324555e-01], [0.0, -0.5345225, 0.0],
            [0.3162278, -0.2672612, -6.324555e-01], [0.6324555, 0.5345225, 3.162278e-01]]
    for i in range(5):
        for j in range(3):
            assert abs(tr[i][j] - want[i][j]) < 5e-7, (i, j, tr[i][j])
        ev, _ = pr.evaluate(float(i + 1))
        assert all(abs(a - b) < 1e-14 for a, b in zip(ev, tr[i]))
    # predict(poly(1:5, 3), 6)
    ev, _ = pr.evaluate(6.0)
    for a, b in zip(ev, [0.9486833, 1.8708287, 4.4271887]):
        assert abs(a - b) < 5e-7
    for a, b in INVERSE_PAIRS:
        assert abs(ELEMENTWISE[a](ELEMENTWISE[b](0.5)) - 0.5) < 1e-15
    assert ELEMENTWISE["exp10"](2.0) == 100.0 and ELEMENTWISE["exp2"](10.0) == 1024.0
    return True
