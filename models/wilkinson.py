"""Reference Wilkinson term algebra, independent of formulaic's parser.

``reference(tokens, ...)`` maps a list of token strings to one of

* a *structure* (ACCEPT): a list of term strings for a simple formula, a tuple
  of such lists for a multi-part side, or ``{"lhs": ..., "rhs": ...}``;
* ``Reject``  - the token string is clearly outside the grammar;
* ``Unspec``  - the documentation is silent; only C14's contract applies.

It is a precedence-climbing parser over ordered term sets, written from
docsite/docs/guides/grammar.md.  Terms are tuples of factor strings in
first-appearance order; term identity ignores factor order.
"""
import itertools
import re


class Reject(Exception):
    pass


class Unspec(Exception):
    pass


PREC = {"~": -100, "|": -50, "+": 100, "-": 100, "*": 200, "/": 200, "%in%": 200, ":": 300, "**": 500, "^": 500}
RIGHT = {"**", "^"}
BINOPS = set(PREC) - {"~", "|"}
NAME_RE = re.compile(r"[A-Za-z_][A-Za-z_0-9]*(\.[A-Za-z_][A-Za-z_0-9]*)*$|^`[^`]+`$|^[A-Za-z_][A-Za-z_0-9.]*\(.*\)$|^\{.*\}$", re.S)
NUM_RE = re.compile(r"\d+(\.\d+)?$")
INT_RE = re.compile(r"\d+$")


def is_name(t):
    return t is not None and t not in PREC and t not in ("(", ")", ".", "[", "]") and not NUM_RE.match(t) and bool(NAME_RE.match(t))


def is_lit(t):
    return t is not None and bool(NUM_RE.match(t))


def factor_str(t):
    """how formulaic prints the factor for an operand token"""
    if t.startswith("`") and t.endswith("`"):
        inner = t[1:-1]
        if NUM_RE.match(inner):
            return "\x00" + inner  # a quoted NAME that looks like a number is not a literal (marker stripped when printing)
        return "`%s`" % inner if ":" in inner else inner
    if (t.startswith("{") and t.endswith("}")) or t.endswith(")"):
        import ast

        code = t[1:-1] if t.startswith("{") else t
        try:
            code = ast.unparse(ast.parse(code.strip(), mode="eval")).replace("\n", " ")  # formatting-insensitive
        except SyntaxError:
            pass
        return "`%s`" % code if ":" in code else code
    return t


def term_mul(t1, t2):
    out = list(t1)
    for f in t2:
        if f not in out:
            out.append(f)
    return tuple(out)


def key(t):
    return tuple(sorted(t))


class OSet:
    """ordered set of terms; identity = sorted factor tuple; first occurrence kept"""

    def __init__(self, items=()):
        self.d = {}
        for t in items:
            self.d.setdefault(key(t), t)

    def __iter__(self):
        return iter(self.d.values())

    def __len__(self):
        return len(self.d)

    def union(self, o):
        return OSet(list(self) + list(o))

    def diff(self, o):
        ok = {key(t) for t in o}
        return OSet([t for t in self if key(t) not in ok])

    def tolist(self):
        return [":".join(t).replace("\x00", "") for t in self]


def has_literal(oset):
    return any(is_lit(f) for t in oset for f in t)


def collapse_signs(tokens):
    """runs of + / - collapse to one sign by the parity of '-'"""
    out, run = [], []
    for t in list(tokens) + [None]:
        if t in ("+", "-"):
            run.append(t)
            continue
        if run:
            out.append("-" if run.count("-") % 2 else "+")
            run = []
        if t is not None:
            out.append(t)
    return out


class _P:
    def __init__(self, toks, avail, used_lhs, on_lhs):
        self.t, self.i, self.avail, self.used, self.on_lhs = toks, 0, avail, used_lhs, on_lhs

    def peek(self):
        return self.t[self.i] if self.i < len(self.t) else None

    def next(self):
        x = self.peek()
        self.i += 1
        return x

    def expr(self, minp):
        left = self.prefix()
        while True:
            op = self.peek()
            if op is None or op == ")" or op not in BINOPS:
                break
            p = PREC[op]
            if p < minp:
                break
            self.next()
            nxt = self.peek()
            if nxt in ("+", "-") and p > 100:
                raise Unspec("sign directly after a tighter-binding operator")
            if nxt is None or nxt == ")" or nxt in BINOPS:
                if op == "*" and nxt == "*":
                    raise Unspec("'* *' lexes as '**'")
                raise Reject("operator %s lacks a right operand" % op)
            right = self.expr(p if op in RIGHT else p + 1)
            left = self.apply(op, left, right)
        return left

    def prefix(self):
        t = self.peek()
        if t in ("+", "-"):
            self.next()
            nxt = self.peek()
            if nxt is None or nxt == ")" or (nxt in BINOPS):
                raise Reject("sign lacks an operand")
            operand = self.expr(101)  # a sign binds like binary +/-: -a:b = -(a:b), -a + b = (-a) + b
            return operand if t == "+" else ("set", OSet())
        return self.atom()

    def atom(self):
        t = self.next()
        if t is None:
            raise Reject("operand expected at end")
        if t == "(":
            if self.peek() == ")":
                raise Unspec("empty parentheses")
            e = self.expr(0)
            if self.next() != ")":
                raise Reject("unbalanced parentheses")
            if e[0] == "lit":
                return ("plit", e[1])
            return e
        if t == ".":
            if self.on_lhs:
                raise Unspec("'.' on a left-hand side")
            if self.avail is None:
                raise Reject("'.' without available variables")
            return ("set", OSet([(v,) for v in self.avail if v not in self.used]))
        if is_lit(t):
            return ("lit", t)
        if is_name(t):
            return ("set", OSet([(factor_str(t),)]))
        if t in BINOPS:
            if t == "*" and self.i >= 2 and self.t[self.i - 2] == "*":
                raise Unspec("'* *' lexes as '**'")
            raise Reject("operator %s lacks a left operand" % t)
        raise Reject("bad operand %r" % (t,))

    @staticmethod
    def toset(v):
        if v[0] in ("lit", "plit"):
            return OSet([(v[1],)])
        return v[1]

    def apply(self, op, l, r):
        if op in ("**", "^"):
            if r[0] not in ("lit", "plit"):
                raise Reject("exponent is not a literal")
            if not INT_RE.match(r[1]):
                raise Reject("exponent is not an integer")
            n = int(r[1])
            if n < 1:
                raise Unspec("exponent 0")
            if l[0] in ("lit", "plit") or has_literal(self.toset(l)):
                raise Unspec("literal raised to a power")
            L = self.toset(l)
            if len(L) == 0:
                raise Unspec("power of an empty set")
            out = []
            for combo in itertools.product(list(L), repeat=n):
                t = ()
                for c in combo:
                    t = term_mul(t, c)
                out.append(t)
            return ("set", OSet(out))
        L, R = self.toset(l), self.toset(r)
        if op == "+":
            return ("set", L.union(R))
        if op == "-":
            return ("set", L.diff(R))
        # product-like operators: a literal may only take part as the direct operand of ':'
        for side in (l, r):
            if side[0] == "set" and has_literal(side[1]):
                raise Unspec("literal inside a set operand of a product")
            if side[0] == "plit":
                raise Unspec("parenthesised literal as product operand")
            if side[0] == "lit" and op != ":":
                raise Unspec("literal as operand of %s" % op)
        if op == ":":
            if l[0] == "lit" and r[0] == "lit":
                raise Unspec("literal:literal")
            return ("set", OSet([term_mul(a, b) for a in L for b in R]))
        if op == "*":
            return ("set", L.union(R).union(OSet([term_mul(a, b) for a in L for b in R])))
        if op in ("/", "%in%"):
            if op == "%in%":
                L, R = R, L
            if len(L) == 0:
                raise Unspec("nesting under an empty parent set")
            common = ()
            for a in L:
                common = term_mul(common, a)
            return ("set", L.union(OSet([term_mul(common, b) for b in R])))
        raise Reject(op)


def check_terms(oset):
    seen = set()
    for t in oset:
        lits = [f for f in t if is_lit(f)]
        non = [f for f in t if not is_lit(f)]
        if len(t) == 1 and lits and t[0] != "1":
            raise Reject("bare numeric literal")
        k = tuple(non)
        if k in seen:
            raise Reject("term repeated with another scaling")
        seen.add(k)


def split_top(tokens, sym):
    parts, depth = [[]], 0
    for t in tokens:
        if t == "(":
            depth += 1
        if t == ")":
            depth -= 1
            if depth < 0:
                raise Reject("unbalanced parentheses")
        if t == sym:
            if depth > 0:
                raise Reject(sym + " inside parentheses")
            parts.append([])
        else:
            parts[-1].append(t)
    if depth != 0:
        raise Reject("unbalanced parentheses")
    return parts


def eval_part(tokens, intercept, avail, used, on_lhs=False):
    toks = list(tokens)
    if intercept:
        toks = (["1", "+"] + toks) if toks else ["1"]
    toks = collapse_signs(toks)
    if not toks:
        raise Unspec("empty part without intercept")
    p = _P(toks, avail, used, on_lhs)
    v = p.expr(0)
    if p.peek() is not None:
        if p.peek() == ")":
            raise Reject("unbalanced parentheses")
        raise Reject("two adjacent operands")
    S = p.toset(v)
    check_terms(S)
    return S.tolist()


def names_in(tokens):
    """data variables referenced by the operand tokens (used for '.' on the other side of ~)"""
    import ast

    out = []
    for t in tokens:
        if not is_name(t):
            continue
        if t.startswith("{") or t.endswith(")"):
            code = t[1:-1] if t.startswith("{") else t
            try:
                tree = ast.parse(code, mode="eval")
            except SyntaxError:
                continue
            called = {id(n.func) for n in ast.walk(tree) if isinstance(n, ast.Call)}
            for n in ast.walk(tree):
                if isinstance(n, ast.Name) and id(n) not in called and n.id not in out:
                    out.append(n.id)
        else:
            out.append(t.strip("`"))
    return out


def reference(tokens, include_intercept=True, avail=None, twosided=True, multipart=True):
    """ACCEPT structure | raise Reject | raise Unspec"""
    for t in tokens:
        if t in ("[", "]"):
            raise Unspec("square brackets (multistage / grouping)")
    for i in range(len(tokens) - 1):
        if tokens[i] == "(" and tokens[i + 1] == ")":
            raise Unspec("empty parentheses")
    toks = []
    for t in tokens:
        if t == "0":
            toks += ["-", "1"]
        else:
            toks.append(t)
    sides = split_top(toks, "~")
    if len(sides) > 2:
        raise Reject("more than one ~")
    if not tokens:
        return ["1"] if include_intercept else []

    def parts_of(side, intercept, used, on_lhs):
        ps = split_top(side, "|")
        if len(ps) > 1 and not multipart:
            raise Reject("multipart disabled")
        if len(ps) > 1 and any(not p_ for p_ in ps):
            raise Unspec("empty part")
        res = [eval_part(p_, intercept, avail, used, on_lhs) for p_ in ps]
        return res[0] if len(res) == 1 else tuple(res)

    if len(sides) == 1:
        return parts_of(sides[0], include_intercept, [], False)
    lhs, rhs = sides
    if not rhs:
        raise Unspec("empty right-hand side")
    if not lhs:
        return parts_of(rhs, include_intercept, [], False)  # unary ~
    if not twosided:
        raise Reject("two-sided formulas disabled")
    used = names_in(lhs)
    return {"lhs": parts_of(lhs, False, [], True), "rhs": parts_of(rhs, include_intercept, used, False)}


def degree(term_str):
    return len([f for f in split_factors(term_str) if not is_lit(f)])


def split_factors(term_str):
    """split 'a:`b:c`:d' at top-level colons"""
    out, cur, q = [], "", False
    for ch in term_str:
        if ch == "`":
            q = not q
            cur += ch
        elif ch == ":" and not q:
            out.append(cur)
            cur = ""
        else:
            cur += ch
    out.append(cur)
    return out


def degree_sorted(terms):
    return sorted(terms, key=degree)
